//! Runner, evidence, replay, known findings, child processes.

use proptest::strategy::Strategy;
use proptest::test_runner::{Config, RngAlgorithm, TestCaseError, TestError, TestRng, TestRunner};
use serde::{Deserialize, Serialize};
use serde_json::{json, Value};
use std::cell::RefCell;
use std::collections::{BTreeMap, BTreeSet, HashSet};
use std::hash::{Hash, Hasher};
use std::panic::{catch_unwind, AssertUnwindSafe};
use std::path::{Path, PathBuf};
use std::sync::atomic::{AtomicU64, Ordering};
use std::sync::OnceLock;
use std::time::Instant;

pub const VERIF_ROOT: &str = "/verif";

#[derive(Clone, Copy, PartialEq, Eq, Debug)]
pub enum Tier {
    Quick,
    Thorough,
}

impl Tier {
    pub fn name(self) -> &'static str {
        match self {
            Tier::Quick => "quick",
            Tier::Thorough => "thorough",
        }
    }
    /// quick-or-thorough selector
    pub fn pick<T>(self, q: T, t: T) -> T {
        match self {
            Tier::Quick => q,
            Tier::Thorough => t,
        }
    }
}

#[derive(Clone, Debug)]
pub struct Opts {
    pub id: String,
    pub tier: Tier,
    pub seed: u64,
    /// "release" (overflow checks off) or "dbg" (overflow checks and debug assertions on)
    pub profile: String,
    pub threads: usize,
}

impl Opts {
    pub fn is_dbg(&self) -> bool {
        self.profile == "dbg"
    }
}

// ---------------------------------------------------------------------------
// Failures and known findings

#[derive(Clone, Debug, Serialize, Deserialize)]
pub struct Failure {
    /// signature: input class + failure mode; this is what known findings key on
    pub sig: String,
    /// one-line human description
    pub what: String,
    /// everything needed to re-run the case (property-specific) plus expected/actual
    pub detail: Value,
}

impl Failure {
    pub fn new(sig: impl Into<String>, what: impl Into<String>, detail: Value) -> Failure {
        Failure {
            sig: sig.into(),
            what: what.into(),
            detail,
        }
    }
}

#[derive(Clone, Debug, Deserialize)]
pub struct KnownFinding {
    pub property: String,
    pub key: String,
    pub what: String,
    pub status: String,
    #[serde(default)]
    pub commit: Option<String>,
}

#[derive(Deserialize)]
struct KnownFile {
    findings: Vec<KnownFinding>,
}

static KNOWN: OnceLock<Vec<KnownFinding>> = OnceLock::new();

pub fn known_findings() -> &'static [KnownFinding] {
    KNOWN.get_or_init(|| {
        let p = Path::new(VERIF_ROOT).join("known_findings.json");
        match std::fs::read_to_string(&p) {
            Ok(s) => match serde_json::from_str::<KnownFile>(&s) {
                Ok(k) => k.findings,
                Err(e) => {
                    eprintln!("cannot parse {}: {}", p.display(), e);
                    std::process::exit(2);
                }
            },
            Err(_) => Vec::new(),
        }
    })
}

/// Returns the open known finding a signature matches, if any. A key ending in `*`
/// matches by prefix, any other key exactly. `fixed` entries never match.
pub fn known_open(property: &str, sig: &str) -> Option<&'static KnownFinding> {
    known_findings().iter().find(|k| {
        k.property == property
            && k.status == "open"
            && (k.key == sig
                || (k.key.ends_with('*') && sig.starts_with(&k.key[..k.key.len() - 1])))
    })
}

// ---------------------------------------------------------------------------
// Accumulator

#[derive(Clone, Debug, Default, Serialize, Deserialize)]
pub struct SubRun {
    pub evaluations: u64,
    pub exhaustive: bool,
    pub note: String,
}

#[derive(Clone, Debug, Default, Serialize, Deserialize)]
pub struct Acc {
    pub property: String,
    pub evaluations: u64,
    pub nontrivial: HashSet<u64>,
    pub classes: BTreeMap<String, u64>,
    pub samples: Vec<Value>,
    pub sample_classes: BTreeSet<String>,
    pub skipped: u64,
    pub skip_reasons: BTreeMap<String, u64>,
    pub fails: Vec<Failure>,
    pub fail_counts: BTreeMap<String, u64>,
    pub known_hits: BTreeMap<String, u64>,
    pub subruns: BTreeMap<String, SubRun>,
    pub inconclusive: Vec<String>,
    pub notes: BTreeMap<String, Value>,
}

pub const MAX_SAMPLES: usize = 24;
pub const MAX_FAILS_PER_SIG: u64 = 1;
pub const MAX_FAILS: usize = 64;

pub fn hash64<T: Hash + ?Sized>(t: &T) -> u64 {
    // FNV-1a over the std hasher's input would need a custom Hasher; SipHash with fixed
    // keys (DefaultHasher::new) is deterministic across runs and processes.
    let mut h = std::collections::hash_map::DefaultHasher::new();
    t.hash(&mut h);
    h.finish()
}

static PROGRESS: AtomicU64 = AtomicU64::new(0);

pub fn progress_ticks() -> u64 {
    PROGRESS.load(Ordering::Relaxed)
}

impl Acc {
    pub fn new(property: &str) -> Acc {
        Acc {
            property: property.to_string(),
            ..Default::default()
        }
    }

    /// Record one explored case. `canon` is the canonical rendering used for distinctness,
    /// `nontrivial` the property's stated rule evaluated on this case, `class` a histogram
    /// label (the generator's measured distribution).
    pub fn case(&mut self, sub: &str, canon: &str, nontrivial: bool, class: &str) {
        PROGRESS.fetch_add(1, Ordering::Relaxed);
        self.evaluations += 1;
        self.subruns.entry(sub.to_string()).or_default().evaluations += 1;
        *self.classes.entry(class.to_string()).or_insert(0) += 1;
        if nontrivial {
            self.nontrivial.insert(hash64(canon));
        }
    }

    /// Count an evaluation that belongs to an already recorded case (e.g. its second form).
    pub fn eval_only(&mut self, sub: &str, n: u64) {
        PROGRESS.fetch_add(1, Ordering::Relaxed);
        self.evaluations += n;
        self.subruns.entry(sub.to_string()).or_default().evaluations += n;
    }

    pub fn class(&mut self, class: &str) {
        *self.classes.entry(class.to_string()).or_insert(0) += 1;
    }

    /// Keep a written-out sample; at most one per sample class until the cap is reached.
    pub fn sample(&mut self, class: &str, v: impl FnOnce() -> Value) {
        if self.samples.len() < MAX_SAMPLES && !self.sample_classes.contains(class) {
            self.sample_classes.insert(class.to_string());
            self.samples.push(v());
        }
    }

    pub fn skip(&mut self, reason: &str) {
        self.skipped += 1;
        *self.skip_reasons.entry(reason.to_string()).or_insert(0) += 1;
    }

    pub fn mark_exhaustive(&mut self, sub: &str, note: &str) {
        let s = self.subruns.entry(sub.to_string()).or_default();
        s.exhaustive = true;
        s.note = note.to_string();
    }

    pub fn note(&mut self, key: &str, v: Value) {
        self.notes.insert(key.to_string(), v);
    }

    /// Record a failure. Known (open) findings are counted and otherwise ignored; anything
    /// else is kept (first per signature) and becomes a VIOLATION.
    pub fn fail(&mut self, f: Failure) {
        if known_open(&self.property, &f.sig).is_some() {
            *self.known_hits.entry(f.sig).or_insert(0) += 1;
            return;
        }
        let c = self.fail_counts.entry(f.sig.clone()).or_insert(0);
        *c += 1;
        if *c <= MAX_FAILS_PER_SIG && self.fails.len() < MAX_FAILS {
            self.fails.push(f);
        }
    }

    pub fn is_tolerated(&self, sig: &str) -> bool {
        known_open(&self.property, sig).is_some()
    }

    pub fn merge(&mut self, o: Acc) {
        self.evaluations += o.evaluations;
        self.nontrivial.extend(o.nontrivial);
        for (k, v) in o.classes {
            *self.classes.entry(k).or_insert(0) += v;
        }
        for (i, s) in o.samples.into_iter().enumerate() {
            let _ = i;
            if self.samples.len() < MAX_SAMPLES {
                self.samples.push(s);
            }
        }
        self.sample_classes.extend(o.sample_classes);
        self.skipped += o.skipped;
        for (k, v) in o.skip_reasons {
            *self.skip_reasons.entry(k).or_insert(0) += v;
        }
        for f in o.fails {
            let c = self.fail_counts.entry(f.sig.clone()).or_insert(0);
            if *c < MAX_FAILS_PER_SIG && self.fails.len() < MAX_FAILS {
                self.fails.push(f);
            }
        }
        for (k, v) in o.fail_counts {
            // counts of o include the failures pushed above
            let e = self.fail_counts.entry(k).or_insert(0);
            *e += v;
        }
        for (k, v) in o.known_hits {
            *self.known_hits.entry(k).or_insert(0) += v;
        }
        for (k, v) in o.subruns {
            let e = self.subruns.entry(k).or_default();
            e.evaluations += v.evaluations;
            e.exhaustive |= v.exhaustive;
            if e.note.is_empty() {
                e.note = v.note;
            }
        }
        self.inconclusive.extend(o.inconclusive);
        for (k, v) in o.notes {
            self.notes.entry(k).or_insert(v);
        }
    }

    /// fresh accumulator for a worker, same property
    pub fn child(&self) -> Acc {
        Acc::new(&self.property)
    }
}

// ---------------------------------------------------------------------------
// Panic capture

thread_local! {
    static LAST_PANIC: RefCell<Option<(String, String)>> = RefCell::new(None);
}

pub fn install_panic_hook() {
    std::panic::set_hook(Box::new(|info| {
        let msg = if let Some(s) = info.payload().downcast_ref::<&str>() {
            s.to_string()
        } else if let Some(s) = info.payload().downcast_ref::<String>() {
            s.clone()
        } else {
            "<non-string panic payload>".to_string()
        };
        let loc = info
            .location()
            .map(|l| format!("{}:{}", l.file(), l.line()))
            .unwrap_or_default();
        LAST_PANIC.with(|p| *p.borrow_mut() = Some((msg, loc)));
    }));
}

#[derive(Clone, Debug)]
pub struct PanicInfo {
    pub msg: String,
    pub loc: String,
}

impl PanicInfo {
    /// file name (without directories or line) of the panic site, for signatures
    pub fn site(&self) -> String {
        let f = self.loc.rsplit('/').next().unwrap_or("");
        f.split(':').next().unwrap_or("").to_string()
    }
    /// coarse class of the panic message, stable across operand values
    pub fn kind(&self) -> String {
        let m = &self.msg;
        let k = if m.contains("overflow") {
            "overflow"
        } else if m.contains("divide by zero") || m.contains("remainder with a divisor of zero") {
            "divzero"
        } else if m.contains("char boundary") || m.contains("byte index") {
            "strindex"
        } else if m.contains("out of range") || m.contains("out of bounds") {
            "range"
        } else if m.contains("unwrap") || m.contains("expect") {
            "unwrap"
        } else if m.contains("logarithm") || m.contains("ilog") {
            "ilog"
        } else if m.contains("Unknown type") {
            "unknown-type"
        } else {
            "other"
        };
        k.to_string()
    }
}

/// Run `f`, turning a panic into an `Err` carrying message and location.
pub fn guard<T>(f: impl FnOnce() -> T) -> Result<T, PanicInfo> {
    LAST_PANIC.with(|p| *p.borrow_mut() = None);
    match catch_unwind(AssertUnwindSafe(f)) {
        Ok(v) => Ok(v),
        Err(_) => {
            let (msg, loc) = LAST_PANIC
                .with(|p| p.borrow_mut().take())
                .unwrap_or_default();
            Err(PanicInfo { msg, loc })
        }
    }
}

// ---------------------------------------------------------------------------
// Drivers

pub const BIG_STACK: usize = 1 << 30;

/// Run `f` over `items` on `threads` workers (chunks in index order, results merged in
/// chunk order, so the outcome does not depend on scheduling).
pub fn par_chunks<T: Sync>(
    acc: &mut Acc,
    threads: usize,
    items: &[T],
    f: impl Fn(&T, &mut Acc) + Sync,
) {
    let threads = threads.max(1);
    if items.is_empty() {
        return;
    }
    let chunk = (items.len() + threads - 1) / threads;
    let mut parts: Vec<Acc> = Vec::new();
    std::thread::scope(|s| {
        let mut hs = Vec::new();
        for c in items.chunks(chunk) {
            let mut a = acc.child();
            let f = &f;
            hs.push(
                std::thread::Builder::new()
                    .stack_size(BIG_STACK)
                    .spawn_scoped(s, move || {
                        for it in c {
                            f(it, &mut a);
                        }
                        a
                    })
                    .expect("spawn"),
            );
        }
        for h in hs {
            match h.join() {
                Ok(a) => parts.push(a),
                Err(_) => {
                    let mut a = Acc::new("");
                    a.inconclusive
                        .push("worker thread panicked outside guard".to_string());
                    parts.push(a);
                }
            }
        }
    });
    for p in parts {
        acc.merge(p);
    }
}

/// Run 0..n in parallel (index passed to `f`).
pub fn par_range(acc: &mut Acc, threads: usize, n: usize, f: impl Fn(usize, &mut Acc) + Sync) {
    let idx: Vec<usize> = (0..n).collect();
    par_chunks(acc, threads, &idx, |i, a| f(*i, a));
}

fn rng_for(seed: u64, stream: u64, round: u64) -> TestRng {
    let mut s = [0u8; 32];
    s[..8].copy_from_slice(&seed.to_le_bytes());
    s[8..16].copy_from_slice(&stream.to_le_bytes());
    s[16..24].copy_from_slice(&round.to_le_bytes());
    s[24..32].copy_from_slice(&0x5ce1_7e57_u64.to_le_bytes());
    TestRng::from_seed(RngAlgorithm::ChaCha, &s)
}

/// proptest-driven random search over byte genomes.
///
/// `f(genome, acc)` decodes and checks one case; it records the case in `acc` and returns
/// the failures it found (empty = pass). Failures matching an open known finding are
/// counted and tolerated so the search continues behind them. The first other failure is
/// shrunk by proptest (same signature must persist), recorded once, and its signature is
/// then tolerated for the rest of this sub-run so that further, different violations are
/// still found.
pub fn random_genomes(
    acc: &mut Acc,
    opts: &Opts,
    sub: &str,
    cases: u32,
    max_len: usize,
    f: impl Fn(&[u8], &mut Acc) -> Vec<Failure> + Sync,
) {
    let threads = opts.threads.max(1) as u32;
    let per = (cases + threads - 1) / threads;
    let sub_hash = hash64(sub);
    let streams: Vec<u32> = (0..threads).collect();
    let seed = opts.seed;
    par_chunks(acc, threads as usize, &streams, |stream, a| {
        random_stream(a, seed ^ sub_hash, *stream as u64, sub, per, max_len, &f);
    });
}

fn random_stream(
    acc: &mut Acc,
    seed: u64,
    stream: u64,
    _sub: &str,
    cases: u32,
    max_len: usize,
    f: &(impl Fn(&[u8], &mut Acc) -> Vec<Failure> + Sync),
) {
    let mut remaining = cases;
    let mut round = 0u64;
    let mut local_tolerated: BTreeSet<String> = BTreeSet::new();
    let strategy = proptest::collection::vec(proptest::num::u8::ANY, 0..max_len.max(1));
    while remaining > 0 && round < 12 {
        let config = Config {
            cases: remaining,
            failure_persistence: None,
            max_shrink_iters: 4000,
            max_global_rejects: 0,
            ..Config::default()
        };
        let mut runner = TestRunner::new_with_rng(config, rng_for(seed, stream, round));
        let done = RefCell::new(0u32);
        let first: RefCell<Option<String>> = RefCell::new(None);
        let acc_cell = RefCell::new(&mut *acc);
        let result = runner.run(&strategy, |genome| {
            if let Some(sig) = first.borrow().as_ref() {
                // shrinking: do not count, only ask whether the same failure persists
                let mut scratch = Acc::new(&acc_cell.borrow().property);
                let fails = f(&genome, &mut scratch);
                return if fails.iter().any(|x| &x.sig == sig) {
                    Err(TestCaseError::fail(sig.clone()))
                } else {
                    Ok(())
                };
            }
            *done.borrow_mut() += 1;
            let mut a = acc_cell.borrow_mut();
            let fails = f(&genome, &mut a);
            let mut bad: Option<String> = None;
            for x in fails {
                if a.is_tolerated(&x.sig) {
                    a.fail(x); // counts the known hit
                } else if local_tolerated.contains(&x.sig) {
                    *a.fail_counts.entry(x.sig).or_insert(0) += 1;
                } else if bad.is_none() {
                    bad = Some(x.sig);
                }
            }
            match bad {
                Some(sig) => {
                    *first.borrow_mut() = Some(sig.clone());
                    Err(TestCaseError::fail(sig))
                }
                None => Ok(()),
            }
        });
        drop(acc_cell);
        let ran = *done.borrow();
        remaining = remaining.saturating_sub(ran.max(1));
        round += 1;
        match result {
            Ok(()) => break,
            Err(TestError::Fail(_, minimal)) => {
                let sig = first.borrow().clone().unwrap_or_default();
                let mut scratch = Acc::new(&acc.property);
                let fails = f(&minimal, &mut scratch);
                let hex: String = minimal.iter().map(|b| format!("{:02x}", b)).collect();
                let mut recorded = false;
                for mut x in fails {
                    if x.sig == sig {
                        if let Value::Object(m) = &mut x.detail {
                            m.insert("genome_hex".into(), json!(hex));
                            m.insert("shrunk".into(), json!(true));
                        }
                        acc.fail(x);
                        recorded = true;
                        break;
                    }
                }
                if !recorded {
                    acc.fail(Failure::new(
                        sig.clone(),
                        "failure did not reproduce on the shrunk genome (flaky?)",
                        json!({"genome_hex": hex}),
                    ));
                }
                local_tolerated.insert(sig);
            }
            Err(TestError::Abort(r)) => {
                acc.inconclusive.push(format!("proptest aborted: {}", r));
                break;
            }
        }
    }
}

pub fn unhex(s: &str) -> Vec<u8> {
    (0..s.len() / 2)
        .filter_map(|i| u8::from_str_radix(&s[2 * i..2 * i + 2], 16).ok())
        .collect()
}

// ---------------------------------------------------------------------------
// Child processes

pub struct ChildOutcome {
    pub status: String, // "ok", "signal:<n>", "exit:<n>", "timeout"
    pub stdout: String,
    pub stderr_tail: String,
}

pub fn exe_for_profile(profile: &str) -> PathBuf {
    let me = std::env::current_exe().expect("current_exe");
    // .../target/<profile>/rscel-verif
    let target = me.parent().and_then(|p| p.parent()).expect("target dir");
    target.join(profile).join("rscel-verif")
}

/// Run this harness (same or other profile) with `args`, with a timeout; never panics.
pub fn run_child(profile: &str, args: &[String], timeout_s: u64, stdin: Option<&str>) -> ChildOutcome {
    use std::io::{Read, Write};
    use std::process::{Command, Stdio};
    let exe = exe_for_profile(profile);
    let mut cmd = Command::new(&exe);
    cmd.args(args)
        .stdin(if stdin.is_some() { Stdio::piped() } else { Stdio::null() })
        .stdout(Stdio::piped())
        .stderr(Stdio::piped());
    let mut child = match cmd.spawn() {
        Ok(c) => c,
        Err(e) => {
            return ChildOutcome {
                status: format!("spawn-error:{}", e),
                stdout: String::new(),
                stderr_tail: String::new(),
            }
        }
    };
    if let (Some(s), Some(mut sin)) = (stdin, child.stdin.take()) {
        let _ = sin.write_all(s.as_bytes());
    }
    let mut out = child.stdout.take().unwrap();
    let mut err = child.stderr.take().unwrap();
    let ho = std::thread::spawn(move || {
        let mut s = String::new();
        let _ = out.read_to_string(&mut s);
        s
    });
    let he = std::thread::spawn(move || {
        let mut s = Vec::new();
        let _ = err.read_to_end(&mut s);
        String::from_utf8_lossy(&s).to_string()
    });
    let start = Instant::now();
    let status = loop {
        match child.try_wait() {
            Ok(Some(st)) => {
                use std::os::unix::process::ExitStatusExt;
                break if let Some(sig) = st.signal() {
                    format!("signal:{}", sig)
                } else if st.success() {
                    "ok".to_string()
                } else {
                    format!("exit:{}", st.code().unwrap_or(-1))
                };
            }
            Ok(None) => {
                if start.elapsed().as_secs() >= timeout_s {
                    let _ = child.kill();
                    let _ = child.wait();
                    break "timeout".to_string();
                }
                std::thread::sleep(std::time::Duration::from_millis(5));
            }
            Err(e) => break format!("wait-error:{}", e),
        }
    };
    let stdout = ho.join().unwrap_or_default();
    let stderr = he.join().unwrap_or_default();
    let tail: String = stderr
        .lines()
        .rev()
        .take(6)
        .collect::<Vec<_>>()
        .into_iter()
        .rev()
        .collect::<Vec<_>>()
        .join("\n");
    ChildOutcome {
        status,
        stdout,
        stderr_tail: tail,
    }
}

/// Run the same property's `part` in the other build profile and merge its accumulator.
pub fn merge_profile_part(acc: &mut Acc, opts: &Opts, profile: &str, timeout_s: u64) {
    let args = vec![
        "part".to_string(),
        opts.id.clone(),
        "--tier".to_string(),
        opts.tier.name().to_string(),
        "--seed".to_string(),
        opts.seed.to_string(),
        "--profile".to_string(),
        profile.to_string(),
    ];
    let exe = exe_for_profile(profile);
    if !exe.exists() {
        acc.inconclusive
            .push(format!("{} binary missing: {}", profile, exe.display()));
        return;
    }
    let out = run_child(profile, &args, timeout_s, None);
    if out.status != "ok" {
        acc.inconclusive.push(format!(
            "{} part ended with {}: {}",
            profile, out.status, out.stderr_tail
        ));
        return;
    }
    let body = out
        .stdout
        .split("<<<ACC")
        .nth(1)
        .and_then(|s| s.split("ACC>>>").next());
    match body.and_then(|b| serde_json::from_str::<Acc>(b).ok()) {
        Some(a) => acc.merge(a),
        None => acc
            .inconclusive
            .push(format!("{} part produced no accumulator", profile)),
    }
}

// ---------------------------------------------------------------------------
// Evidence and reporting

pub struct Report<'a> {
    pub rule: &'a str,
    pub assumptions: Vec<String>,
    pub exhaustive: bool,
}

pub fn finish(acc: &Acc, opts: &Opts, report: &Report, wall_s: f64) -> i32 {
    let root = Path::new(VERIF_ROOT);
    let _ = std::fs::create_dir_all(root.join("evidence"));
    let _ = std::fs::create_dir_all(root.join("replays"));

    // known findings: one line each
    let mut known_lines = Vec::new();
    for (sig, n) in &acc.known_hits {
        if let Some(k) = known_open(&acc.property, sig) {
            known_lines.push((k.key.clone(), k.what.clone(), *n));
        }
    }
    let mut seen = BTreeSet::new();
    for (key, what, _n) in &known_lines {
        if seen.insert(key.clone()) {
            println!("KNOWN-FINDING: property={} {} [{}]", acc.property, what, key);
        }
    }

    let mut violation_paths = Vec::new();
    for f in &acc.fails {
        let h = hash64(&(f.sig.as_str(), f.detail.to_string()));
        let path = root
            .join("replays")
            .join(format!("{}-{:016x}.json", acc.property, h));
        let body = json!({
            "property": acc.property,
            "sig": f.sig,
            "what": f.what,
            "detail": f.detail,
            "tier": opts.tier.name(),
            "seed": opts.seed,
        });
        let _ = std::fs::write(&path, serde_json::to_string_pretty(&body).unwrap());
        println!("VIOLATION property={} replay={}", acc.property, path.display());
        println!("  sig={} :: {}", f.sig, f.what);
        violation_paths.push(path.display().to_string());
    }

    let exhaustive_subs: Vec<&String> = acc
        .subruns
        .iter()
        .filter(|(_, s)| s.exhaustive)
        .map(|(k, _)| k)
        .collect();
    let mut coverage = json!({
        "evaluations": acc.evaluations,
        "distinct_nontrivial": acc.nontrivial.len(),
        "rule": report.rule,
        "samples": acc.samples,
        "exhaustive": report.exhaustive,
        "exhaustive_subruns": exhaustive_subs,
        "subruns": acc.subruns,
        "classes": acc.classes,
        "skipped_unspecified": acc.skipped,
        "skip_reasons": acc.skip_reasons,
        "known_finding_hits": acc.known_hits,
        "violation_signatures": acc.fail_counts,
        "inconclusive": acc.inconclusive,
    });
    if let Value::Object(m) = &mut coverage {
        for (k, v) in &acc.notes {
            m.insert(k.clone(), v.clone());
        }
    }
    let ev = json!({
        "property_id": acc.property,
        "tier": opts.tier.name(),
        "seed": opts.seed,
        "level": "exploration",
        "coverage": coverage,
        "assumptions": report.assumptions,
        "wall_s": (wall_s * 1000.0).round() / 1000.0,
        "violations": acc.fails.len(),
        "replays": violation_paths,
    });
    let evp = root.join("evidence").join(format!("{}.json", acc.property));
    if let Err(e) = std::fs::write(&evp, serde_json::to_string_pretty(&ev).unwrap()) {
        eprintln!("cannot write evidence {}: {}", evp.display(), e);
        return 2;
    }

    println!(
        "{} {}: evaluations={} distinct_nontrivial={} skipped={} known_hits={} violations={} wall={:.1}s",
        acc.property,
        opts.tier.name(),
        acc.evaluations,
        acc.nontrivial.len(),
        acc.skipped,
        acc.known_hits.values().sum::<u64>(),
        acc.fails.len(),
        wall_s
    );
    if !acc.fails.is_empty() {
        return 1;
    }
    if !acc.inconclusive.is_empty() {
        for i in &acc.inconclusive {
            println!("INCONCLUSIVE: {}", i);
        }
        return 2;
    }
    if acc.evaluations > 0 && acc.skipped * 2 > acc.evaluations + acc.skipped {
        println!("INCONCLUSIVE: more than half of the generated cases were skipped");
        return 2;
    }
    0
}
