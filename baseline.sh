#!/bin/bash
# Runs the repository's own test suite (guard off: no --cfg rscel_verif) and prints a summary.
# Exit 0 iff no test failed and at least 497 passed.
cd /repo || exit 2
export CARGO_NET_OFFLINE=true
out=$(cargo test --workspace --no-fail-fast --offline 2>&1)
echo "$out" | grep -E '^test result|FAILED|failed|panicked' | head -40
passed=$(echo "$out" | grep -E '^test result' | sed -E 's/.* ([0-9]+) passed.*/\1/' | paste -sd+ | bc)
failed=$(echo "$out" | grep -E '^test result' | sed -E 's/.* ([0-9]+) failed.*/\1/' | paste -sd+ | bc)
echo "baseline: passed=$passed failed=$failed"
[ "$failed" = "0" ] && [ "$passed" -ge 497 ]
