#!/bin/bash
# fuzz_campaign.sh <ID>: libFuzzer campaign(s) for one property (thorough tier).
# exit 0 no violation, 1 violation (VIOLATION line printed by the target), 2 unavailable.
set -u
ID="$1"
SEED="${VERIF_SEED:-0}"; [ "$SEED" = "0" ] && SEED=1   # libFuzzer: 0 means random
RUNS="${VERIF_FUZZ_RUNS:-10000}"
JOBS="${VERIF_FUZZ_JOBS:-8}"
export CARGO_NET_OFFLINE=true
cd /verif/fuzz || exit 2
if ! cargo fuzz build --fuzz-dir . >/verif/work/fuzz_build.log 2>&1; then
  tail -5 /verif/work/fuzz_build.log; echo "INCONCLUSIVE: fuzz build failed"; exit 2
fi
BIN=/verif/fuzz/target/x86_64-unknown-linux-gnu/release
rc=0
run_one() { # target prop maxlen
  local target="$1" prop="$2" maxlen="$3"
  local corpus=/verif/work/corpus/$prop; rm -rf "$corpus"; mkdir -p "$corpus" /verif/work/fuzzlogs/$prop
  : > "$corpus/empty"
  if [ "$target" = "fz_source" ]; then cp /verif/fuzz/seeds/*.txt "$corpus/" 2>/dev/null; fi
  ( cd /verif/work/fuzzlogs/$prop && rm -f fuzz-*.log && VERIF_FUZZ_PROP="$prop" "$BIN/$target" "$corpus" -runs="$RUNS" -seed="$SEED" \
      -len_control=0 -max_len="$maxlen" -timeout=300 -jobs="$JOBS" -workers="$JOBS" -dict=/verif/fuzz/cel.dict \
      -artifact_prefix=/verif/work/fuzzlogs/$prop/ >/verif/work/fuzzlogs/$prop/driver.log 2>&1 )
  local viol; viol=$(grep -h -A1 '^VIOLATION' /verif/work/fuzzlogs/$prop/fuzz-*.log 2>/dev/null | head -4)
  local done_runs; done_runs=$(grep -h -o 'Done [0-9]* runs' /verif/work/fuzzlogs/$prop/fuzz-*.log 2>/dev/null | awk '{s+=$2} END {print s+0}')
  local files; files=$(ls "$corpus" | wc -l)
  echo "libFuzzer $target prop=$prop: runs=$done_runs corpus_files=$files seed=$SEED"
  python3 - "$ID" "$target" "$prop" "$done_runs" "$files" "$SEED" <<'PY'
import json,sys
id_,target,prop,runs,files,seed=sys.argv[1:]
p=f"/verif/evidence/{id_}.json"
try:
    e=json.load(open(p))
    e["coverage"].setdefault("libfuzzer",[]).append({"target":target,"decoder":prop,"runs":int(runs),"corpus_files":int(files),"seed":int(seed),
        "note":"coverage-guided campaign over the same genome decoder and oracle; the oracle runs inside the target"})
    json.dump(e,open(p,"w"),indent=1)
except Exception as ex:
    print("could not update evidence:",ex)
PY
  if [ -n "$viol" ]; then echo "$viol"; rc=1; fi
  if grep -q -h 'ERROR: libFuzzer: timeout\|ERROR: libFuzzer: out-of-memory' /verif/work/fuzzlogs/$prop/fuzz-*.log 2>/dev/null; then
     echo "INCONCLUSIVE: libFuzzer time-out/oom in $prop"; [ $rc -eq 0 ] && rc=2; fi
  # a crash that is not the target's own VIOLATION abort (harness bug, stack overflow) decides nothing
  if [ -z "$viol" ] && grep -q -h 'ERROR: libFuzzer: deadly signal\|ERROR: AddressSanitizer' /verif/work/fuzzlogs/$prop/fuzz-*.log 2>/dev/null; then
     echo "INCONCLUSIVE: libFuzzer target crashed without reporting a violation in $prop (see work/fuzzlogs/$prop)"; [ $rc -eq 0 ] && rc=2; fi
}
run_one fz_genome "$ID" 900
if [ "$ID" = "C01" ]; then run_one fz_source C01src 256; fi
exit $rc
