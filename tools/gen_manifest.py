#!/usr/bin/env python3
"""Regenerates /verif/MANIFEST.json from the table below (kept next to the checks)."""
import json
PROPS=[json.loads(l) for l in open('/verif/properties.jsonl')]
CHECKS = {
 "C01": dict(
   text="Totality search with five generators under catch_unwind: 20k/1M proptest-generated full-language sources with boundary-heavy bindings, 100k/5M token mutants and truncations of them, random UTF-8 / CEL-alphabet strings, an exhaustive built-in sweep (71 functions/macros/constructors x all arity-0/1 tuples of a 50-value boundary pool and all arity-2 tuples of a 19-value (quick) / 50-value (thorough) pool, free and method form, literal and bound, both build profiles), and ~1300 isolated child-process runs (30 nesting/width ladder constructs x depths up to 4096 (quick) / 16384 (thorough) and 27 cyclic program-reference shapes, on the 8 MiB main stack and a 2 MiB thread, release and overflow-checking builds). Only a panic, a dead child or a child time-out fail. Exploration.",
   note="Trusted: catch_unwind + process isolation as the observation of 'panic/abort'; a 60 s child time-out is inconclusive, never a violation; non-termination of unexplored inputs is out of reach.",
   technique="proptest grammar-based generation + token mutation + random text (fuzzing for panics), exhaustive built-in x boundary-argument sweep, child-process isolation for stack-exhaustion ladders and reference cycles"),
 "C02": dict(
   text="Exhaustive enumeration of all flat (parenthesis-free) sequences of 1-2 binary operators over decorated operands, all 2744 operator triples, and all placements of one ?: (15^3 slot fillings, else-chains), each compared with the tree an independent precedence-climbing parser derives from the CEL table; plus 10k/300k proptest-generated random trees rendered with minimal/full/random redundant parentheses and tight/single/random whitespace (shape must equal the generated tree), and 10k/300k typed trees evaluated under random bindings against a reference evaluator. Exploration: holds on everything enumerated/generated.",
   note="Trusted: the CEL precedence table as written in the property; Program::ast() as the exposed tree with Primary::Parens transparent.",
   technique="exhaustive enumeration of operator sequences vs independent precedence-climbing oracle; proptest random trees, render/parse round-trip and metamorphic re-parenthesisation/whitespace; reference evaluator"),
 "C03": dict(
   text="Exhaustive enumeration of the numeric boundary grid (5 operators x all ordered pairs of 105 int/uint/double/bool boundary values, non-numeric representatives, unary minus) plus 20k (quick) / 2M (thorough) proptest-generated random operand pairs, each in literal (folded) and bound (VM) form and under both build profiles, against an i128/IEEE reference model. Exploration: holds on everything enumerated/generated, no claim beyond.",
   note="Trusted: host IEEE-754 f64 arithmetic and i128 arithmetic as the reference; the model's Unspecified set (bool+bool, double % x, -bool, int with uint above i64::MAX may fail) is not asserted.",
   technique="exhaustive boundary-grid enumeration + proptest random operands vs i128/IEEE reference model, literal-vs-bound differential, two build profiles"),
 "C05": dict(
   text="Exhaustive enumeration of every one-operator tree / context (|| && ?: ! bool() match, macro predicates) over a 33-atom set (a truthy and a falsy value of every type, failing atoms, an unbound variable, call-recording bound functions) and every two-operator tree over a reduced 10-atom set, plus 15k/600k proptest-generated random trees to depth 5; each tree is run with value atoms bound (VM) and as literals (folder) and compared with a reference model of the statement: result value / is-failure AND the exact multiset of recorded calls (laziness). Exploration.",
   note="Trusted: the reference model in model.rs (one rule per sentence of the statement, explicit Unspecified); which of two failing operands' error surfaces and bool(<string>) are not asserted.",
   technique="exhaustive small-tree enumeration + proptest random trees vs reference model, laziness observed through call-recording bound functions, literal-vs-bound differential"),
 "C06": dict(
   text="Exhaustive grids: lists of size 0..5 x every index in [-size-2,size+2] as int and uint plus extreme and non-integer indices; all map-literal entry sequences of length 0..3 over two keys (every duplicate pattern) x lookups by m[k] and m.k; in / + / size over one value of every type on both sides; nested index/field paths; plus 20k/600k proptest-generated random cases (elements of every type, nesting <= 3). Three forms per case: literal collection (folded), literal with one bound element (MKLIST/MKDICT), bound collection. Oracle: reference model of the statement. Exploration.",
   note="Trusted: model.rs rules for index/in/concat/size; indexing strings/bytes, non-string keys, size(map), cross-type membership are not asserted.",
   technique="exhaustive index/key grids + proptest random collections vs reference model; three-form (folded / run-time constructed / bound) differential"),
 "C07": dict(
   text="Grid of list lengths {0..3,5,31,32,33,40,64} (thorough 0..66) x deciding positions x 20 macro templates (all/exists/exists_one/filter/map/reduce with early exit, failing bodies, nested same-name variables, outer variables, stored programs) x outer binding of the loop variable present/absent, plus 6k/200k proptest-generated cases; oracle = the defining folds (model.rs), the exact visit log recorded by an echoing bound function, and the caller's bindings after execution. Map iteration: permutation + identical order across repeated executions, separately built equal maps, and literal vs bound. Exploration.",
   note="Trusted: model.rs macro folds; only 'one fixed order' is required of map keys, not which one.",
   technique="enumerated length x position x template grid + proptest random cases vs reference folds; visit order via recording function; metamorphic order-stability check for maps"),
 "C15": dict(
   text="Exhaustive grids: 7 unary math built-ins x 175 boundary numbers and pow x 175^2 pairs (both build profiles); splitAt x every byte index; 16 string built-ins x 34 haystacks x 27 needles; 4 regex built-ins x 46 patterns x 18 haystacks vs the regex crate called directly; a shape grid of 32 built-ins x all argument tuples of arity 0..4 (free) / 0..3 (method) from a one-value-per-type pool that must fail unless the dispatch signature accepts them; plus 24k/1M proptest-generated random calls. Literal (folded) and bound (VM) form of every call. Oracle: naive reference implementations in the harness. Exploration.",
   note="Trusted: std's Unicode case tables and the regex crate as references; pow(double, .) within 1e-9 relative; unspecified points listed in DESIGN 3.3 are not asserted.",
   technique="exhaustive built-in x argument grids + proptest random calls vs naive reference implementations and the regex crate (differential); shape table enumeration"),
 "C16": dict(
   text="Exhaustive grids: timestamp x duration boundary pools for + - and the three laws with i128 nanosecond range arithmetic; 10 calendar accessors at month/year boundaries of 21 boundary years, zone-less vs 'UTC'; ALL 597 IANA zone names x fixed instants and UTC-offset transition instants +-1 s against the harness's own civil-from-days algorithm (offsets from chrono-tz); invalid zone names; duration accessors; uomConvert identity/inverse/transitivity/table agreement over all in-category unit pairs and every alias, cross-category and unknown units must fail; plus ~240k proptest-generated random cases. Both build profiles. Exploration.",
   note="Trusted: chrono-tz UTC offsets per instant (offsets only), the harness's table of exact unit definitions (rel 5e-7), Hinnant's civil-from-days algorithm.",
   technique="exhaustive boundary/zone/unit grids + proptest random instants vs independent calendar algorithm and i128 range model; algebraic laws (inverse, transitivity) as metamorphic relations"),
 "C08": dict(
   text="Exhaustive grid: field paths of depth 0..4 in every mix of .f / ['f'] steps x binding configurations (root unbound, key missing at each level, leaf null, leaf present, intermediate not a map) wrapped in has()/coalesce() and placed at top level, in macro bodies, ?: arms, call arguments and list elements; all coalesce argument lists of length 0..3 over 14 argument kinds (present, null, absent variable/field/key, division by zero, bad index, type error, recording functions); has() over each kind; plus 20k/500k proptest-generated nested has/coalesce lists. Oracle: reference model with an Absent failure class and the ordered log of recorded calls. Exploration.",
   note="Trusted: model.rs; .f on a non-map value and absent fields named like built-ins are not asserted.",
   technique="exhaustive path x binding-configuration grid and argument-list enumeration + proptest random lists vs reference model; argument evaluation observed through recording functions"),
 "C13": dict(
   text="Round-trip search: exhaustive grids (int/uint pools and every hex digit in every spelling; ~150 value-preserving spellings of each boundary double; every byte 0..255 and every code point 0..255 plus all code-point class boundaries in every escape form, both quote styles, raw/f prefixes; \\u sweep over the BMP and \\U sweep over all planes; a rejection grid of out-of-range integers, bad code points, truncated escapes, unterminated literals) plus 40k/2M proptest-generated literals; the generated VALUE is the oracle (bit-exact), rejections must be CelError::Syntax. Exploration.",
   note="Trusted: Rust's shortest round-trip float printing; unknown escapes, string octal 400-777 and the spelling -9223372036854775808 are not asserted.",
   technique="generate value -> render literal in random spelling -> evaluate -> compare (round-trip oracle); enumerated rejection set"),
 "C18": dict(
   text="Generated full-language sources rendered with random whitespace (tabs, newlines) and multi-byte characters (20k/1M), exhaustive single-token and operator-layout grids, and ~335k corrupted/truncated variants: every AST node's span is converted to byte offsets by an independent line/char count and checked (inside source, containment, sibling disjointness/order, no surrounding whitespace, root = trimmed source, re-compiling the spanned text yields a Shape-equal subtree); tokens strictly increasing and re-lexing to themselves; syntax errors locate inside the source. Exploration.",
   note="Trusted: astn.rs Shape normalisation; match pattern nodes are not checked (the property excludes them); NotList/NegList and postfix pieces only 'inside the source'.",
   technique="proptest-generated sources with random layout; span -> substring -> re-compile round trip against the node's normalised shape; token re-lex round trip; corruption fuzzing for error locations"),
 "C19": dict(
   text="A constant/construct grid (every boundary-pool constant of every type, 41 error-producing constants, ~150 one-per-construct programs, each alone and nested in lists/maps/?:/macros) and 60k/1.5M proptest-generated programs (constant-only, constant-rich, full language) x {serde_json, bincode} x 3-5 bindings: serialize, deserialize, equal source/params, structurally equal canonical bytecode, same value or error variant on execution, idempotent re-serialization. The run records which CelValue and ByteCode variants occurred (all 15 + 29). Exploration.",
   note="Trusted: serde_json/bincode themselves; sub-millisecond time constants are outside the property's domain; error messages not compared.",
   technique="proptest-generated constant-rich programs, serialize/deserialize round trip with behavioural (differential execution) and structural comparison; variant-coverage measurement"),
 "C20": dict(
   text="Exhaustive grids (14 operators x operand forms, all 196 operator pairs in both groupings, unary runs, 9 constructors x arity x argument forms, 36 string-alphabet symbols x 3 spellings x 10 positions incl. map keys and index keys, call shapes alone/chained/call-on-call, untranslatable constructs in 18 slots) plus 30k/1.2M proptest-generated expressions over the translatable subset; the emitted SQL is re-parsed by an independent tokenizer/parser with standard SQL lexical rules (sqlp.rs) and must yield the same Shape as the CEL AST under the fixed renaming, consume the whole output as one statement without comments, and carry the same multiset of string-literal contents. Exploration.",
   note="Trusted: sqlp.rs as the reading of the emitted dialect (most lenient postfix/prefix precedence, so anything flagged is wrong under every reading); numeric literal types compared by value.",
   technique="proptest-generated expressions; translate -> independent SQL re-parse -> compare operator trees (translation validation by round trip); string-literal multiset invariant against injection"),
 "C09": dict(
   text="Metamorphic search: proptest-generated full-language expressions over an environment of bound/unbound variables; every variable subset (all subsets up to 4 variables, sampled beyond) is replaced by literals of the bound values and literals are hoisted into fresh variables; all forms must evaluate to the same canonical value or the same error variant (compiler's evaluator vs VM). A seed grid enumerates the constructs the statement names x one operand of every type. Clock reads are checked by compiling, sleeping 30 ms and requiring the result not to predate execution. Exploration.",
   note="Trusted: rendering of values as literals (checked independently by C13); error messages are not compared; built-ins are not rebound.",
   technique="metamorphic literal<->variable substitution over proptest-generated expressions (folder vs VM differential), enumerated construct x type seed grid, clock-freeze probe"),
 "C10": dict(
   text="Static all-paths verification (abstract interpretation over stack heights, every successor edge, recursive on nested blocks) of the bytecode of 45k/900k proptest-generated programs (full language + a control-flow-dense generator), cross-checked dynamically; plus 30k/1M generated instruction sequences injected through serde and compared with a reference interpreter of the VM's jump/stack rules. Exploration over generated programs; each program is covered on all its paths.",
   note="Trusted: the stack-effect table transcribed from the VM step function; serde injection of Program as the way to present arbitrary bytecode to the VM.",
   technique="proptest-generated programs checked by a static stack/jump verifier on all paths; generated instruction sequences vs reference interpreter (model-based) for the VM bounds checks"),
 "C17": dict(
   text="A position grid plants one variable in each syntactic position the statement lists (42 shapes, exhaustive), and 30k/600k proptest-generated full-language programs are checked for: harness free-variable set subset of params(); reported names are identifier tokens of the source; all reported names bound => no unbound-variable failure; dropping bindings of unreported names does not change the result; filter_from_bindings leaves exactly the expected set. Exploration.",
   note="Trusted: the harness's scoping rules for macro loop variables; names in call/member position are not variables.",
   technique="enumerated position grid + proptest-generated programs vs independent free-variable analysis; evaluation-relevance metamorphic check"),
}
def chk(pid,c):
    return {"property_id":pid,"quick_cmd":f"./vcheck {pid} quick","thorough_cmd":f"./vcheck {pid} thorough",
            "evidence_file":f"/verif/evidence/{pid}.json","replay_cmd_template":f"./vcheck {pid} --replay {{path}}",
            "engine":"rscel-verif","level_claimed":{"category":"exploration","text":c["text"],"design_ref":f"DESIGN.md §4 {pid}"},
            "level_note":c["note"],"technique":c["technique"]}
checks=[chk(p,CHECKS[p]) for p in sorted(CHECKS)]
na=[{"property_id":p["id"],"reason":"check not built yet in this session (work in progress; see DESIGN.md §9 implementation order)"} for p in PROPS if p["id"] not in CHECKS]
m={"version":1,
   "setup_cmd":"cd /verif/harness && CARGO_NET_OFFLINE=true cargo build --profile release && CARGO_NET_OFFLINE=true cargo build --profile dbg",
   "hooks":{"guard":"rscel_verif","enable":"no hooks are needed: the harness links /repo/rscel and /repo/extensions/to_sql by path and uses only the public API (RUSTFLAGS='--cfg rscel_verif' is reserved, no source commits use it)",
            "baseline_off_cmd":"/verif/baseline.sh","source_commits":[],"add_only":True},
   "engines":[{"name":"rscel-verif","path":"/verif/harness","serves_properties":sorted(CHECKS),
               "kind_free_text":"Rust binary: proptest-driven byte-genome generators, exhaustive grid enumeration, reference models, child-process isolation; built in two profiles (release, dbg=overflow checks on) from /repo's working tree"}],
   "checks":checks,"not_applicable":na,
   "notes":"All checks: ./vcheck <ID> quick|thorough rebuilds the harness from /repo's working tree, runs, writes evidence/<ID>.json. Exit 0 held, 1 violation, 2 inconclusive (build failure/watchdog)."}
if not na: del m["not_applicable"]
json.dump(m,open('/verif/MANIFEST.json','w'),indent=1)
print("claimed:",sorted(CHECKS),"not claimed:",len(na))
