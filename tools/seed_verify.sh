#!/bin/bash
# seed_verify.sh <ID> <mK>: confirm a seeded change in its scratch worktree:
#   suite passes with the change, demo fails with it, demo passes without it.
# Worktree and agent output come from SEED_WT_PREFIX (default /tmp/seed_) and SEED_OUT_ROOT
# (default /tmp/seedout); falls back to /verif/seeded/<ID>-<mK>.
# Prints one line: VERIFY <ID> <m> suite=<pass|FAIL> demo_with=<fail|PASS> demo_without=<pass|FAIL>
ID="$1"; M="$2"
WT=${SEED_WT_PREFIX:-/tmp/seed_}$ID; OUT=${SEED_OUT_ROOT:-/tmp/seedout}/$ID/$M
[ -d "$OUT" ] || OUT=/verif/seeded/$ID-$M
export CARGO_NET_OFFLINE=true
cd "$WT" || exit 2
git checkout -q -- . ; git clean -fdq -e target
pkg=rscel; demodir=rscel/tests
if grep -q 'rscel_to_sql' "$OUT/seed_demo.rs"; then pkg=rscel-to-sql; demodir=extensions/to_sql/tests; fi
mkdir -p $demodir
if ! git apply --check "$OUT/patch.diff" 2>/dev/null; then echo "VERIFY $ID $M patch-does-not-apply"; exit 1; fi
git apply "$OUT/patch.diff"
suite=$(cargo test -q -p rscel -p rscel-to-sql --offline 2>&1 | grep -E '^test result' | awk '{p+=$4; f+=$6} END {print p" "f}')
sp=$(echo $suite | cut -d' ' -f1); sf=$(echo $suite | cut -d' ' -f2)
# a dev-dependency the demonstration needs (never part of the seeded change itself)
[ -f "$OUT/demo_cargo.diff" ] && git apply "$OUT/demo_cargo.diff"
cp "$OUT/seed_demo.rs" $demodir/seed_demo.rs
with=$(cargo test -q -p $pkg --test seed_demo --offline 2>&1 | grep -E '^test result' | head -1)
git apply -R "$OUT/patch.diff"
without=$(cargo test -q -p $pkg --test seed_demo --offline 2>&1 | grep -E '^test result' | head -1)
rm -f $demodir/seed_demo.rs; git checkout -q -- . ; git clean -fdq -e target
s_ok=FAIL; [ "$sf" = "0" ] && [ "${sp:-0}" -ge 497 ] && s_ok=pass
w_ok=PASS; echo "$with" | grep -q 'FAILED' && w_ok=fail
wo_ok=FAIL; echo "$without" | grep -q 'test result: ok' && wo_ok=pass
echo "VERIFY $ID $M suite=$s_ok($sp/$sf) demo_with=$w_ok demo_without=$wo_ok"
