#!/bin/bash
# seed_eval.sh <ID> <m1|m2> [check ids...]: apply a seeded change to /repo, run the quick
# checks, undo it. Writes /verif/work/seedruns/<ID>-<m>.txt and prints a summary line.
ID="$1"; M="$2"; shift 2
CHECKS="$@"; [ -z "$CHECKS" ] && CHECKS="C01 C02 C03 C04 C05 C06 C07 C08 C09 C10 C11 C12 C13 C14 C15 C16 C17 C18 C19 C20"
OUT=${SEED_OUT_ROOT:-/tmp/seedout}/$ID/$M; [ -d "$OUT" ] || OUT=/verif/seeded/$ID-$M
LOG=/verif/work/seedruns/$ID-$M.txt; mkdir -p /verif/work/seedruns
cd /repo || exit 2
if [ -n "$(git status --porcelain)" ]; then echo "SEED $ID $M: /repo is not clean"; exit 2; fi
if ! git apply --3way "$OUT/patch.diff" 2>/tmp/apply.err; then echo "SEED $ID $M: patch does not apply to current HEAD"; git checkout -q -- .; git reset -q; exit 3; fi
git reset -q   # --3way stages
: > "$LOG"
caught=""
for c in $CHECKS; do
  out=$(cd /verif && ./vcheck $c quick 2>&1); code=$?
  echo "=== $c exit=$code" >> "$LOG"
  echo "$out" | grep -E 'sig=|^C[0-9]+ quick|INCONCLUSIVE|KNOWN' | cut -c1-400 >> "$LOG"
  if [ $code -eq 1 ]; then caught="$caught $c"; fi
  if [ $code -eq 2 ]; then caught="$caught $c(inconclusive)"; fi
done
git checkout -q -- . ; git clean -fdq
echo "SEED $ID $M caught_by:${caught:- NONE}"
echo "SUMMARY caught_by:${caught:- NONE}" >> "$LOG"
