#!/usr/bin/env python3
"""Write seeded/<ID>-mK/meta.json from the agents' READMEs and the evaluation record below."""
import json, os, re
ROOT = '/verif/seeded'
# quick-tier evaluation of every seeded change against all 20 checks (tools/seed_eval.sh), first pass
FIRST = {
 'C01-m1': ['C01'], 'C01-m2': ['C01', 'C02', 'C03'],
 'C02-m1': ['C02'], 'C02-m2': ['C05'],
 'C03-m1': ['C03', 'C04', 'C05', 'C06', 'C09', 'C14', 'C15'], 'C03-m2': ['C09'],
 'C04-m1': ['C04'], 'C04-m2': ['C04'],
 'C05-m1': ['C05'], 'C05-m2': ['C05'],
 'C06-m1': ['C06'], 'C06-m2': ['C06', 'C08', 'C12'],
 'C07-m1': ['C05'], 'C07-m2': ['C05', 'C07'],
 'C08-m1': [], 'C08-m2': ['C08'],
 'C09-m1': ['C05', 'C09', 'C10'], 'C09-m2': ['C05'],
 'C10-m1': ['C05', 'C09', 'C10'], 'C10-m2': [],
 'C11-m1': [], 'C11-m2': ['C09', 'C15', 'C17'],
 'C12-m1': [], 'C12-m2': [],
 'C13-m1': ['C13'], 'C13-m2': ['C13'],
 'C14-m1': ['C14'], 'C14-m2': ['C09', 'C14', 'C17'],
 'C15-m1': ['C15'], 'C15-m2': ['C15'],
 'C16-m1': ['C16'], 'C16-m2': ['C16'],
 'C17-m1': ['C17'], 'C17-m2': ['C17'],
 'C18-m1': ['C18'], 'C18-m2': [],
 'C19-m1': ['C19'], 'C19-m2': ['C19'],
 'C20-m1': ['C20'], 'C20-m2': ['C20'],
 # round 2 (m3, m4): agents were told what round 1 had tried and asked for something different in kind
 'C01-m3': ['C01', 'C18'], 'C01-m4': ['C16'],
 'C02-m3': ['C02', 'C06', 'C09', 'C17'], 'C02-m4': [],   # every check inconclusive: the harness did not compile (new AST variant)
 'C03-m3': ['C03', 'C04', 'C06'], 'C03-m4': ['C03', 'C09', 'C17'],
 'C04-m3': ['C04'], 'C04-m4': ['C04'],
 'C05-m3': ['C05', 'C07'], 'C05-m4': ['C05', 'C09', 'C10', 'C12'],
 'C06-m3': ['C06'], 'C06-m4': ['C06'],
 'C07-m3': ['C05', 'C07', 'C09', 'C12'], 'C07-m4': ['C07'],
 'C08-m3': ['C08'], 'C08-m4': [],
 'C09-m3': ['C02', 'C03', 'C05', 'C09'], 'C09-m4': ['C09', 'C12'],
 'C10-m3': ['C05', 'C10'], 'C10-m4': ['C09', 'C10', 'C14'],
 'C11-m3': [], 'C11-m4': [],
 'C12-m3': ['C12'], 'C12-m4': [],
 'C13-m3': ['C03', 'C04', 'C05', 'C06', 'C09', 'C13', 'C14', 'C15'], 'C13-m4': [],
 'C14-m3': ['C09', 'C14'], 'C14-m4': ['C14'],
 'C15-m3': ['C15'], 'C15-m4': ['C14', 'C15'],
 'C16-m3': ['C16'], 'C16-m4': ['C16'],
 'C17-m3': ['C17'], 'C17-m4': [],
 'C18-m3': ['C18'], 'C18-m4': ['C18'],
 'C19-m3': ['C19'], 'C19-m4': ['C19'],
 'C20-m3': ['C20'], 'C20-m4': [],
 # round 3 (m5, m6): agents were told all four earlier attempts per property
 'C01-m5': [],   # C01 and C18 inconclusive (watchdog): the change makes compilation hang
 'C01-m6': ['C01'],
 'C02-m5': [], 'C02-m6': [],
 'C03-m5': ['C09'], 'C03-m6': [],
 'C04-m5': ['C04'], 'C04-m6': ['C04', 'C09'],
 'C05-m5': ['C05', 'C07'], 'C05-m6': ['C05', 'C09'],
 'C06-m5': ['C06', 'C09'], 'C06-m6': ['C01'],
 'C07-m5': ['C07', 'C12'], 'C07-m6': [],
 'C08-m5': ['C09'], 'C08-m6': ['C08'],
 'C09-m5': ['C05', 'C09'], 'C09-m6': ['C05', 'C09'],
 'C10-m5': ['C02', 'C05', 'C10'], 'C10-m6': ['C10'],
 'C11-m5': [], 'C11-m6': ['C09', 'C11', 'C14', 'C17'],
 'C12-m5': ['C08'], 'C12-m6': [],
 'C13-m5': ['C13', 'C18'], 'C13-m6': [],
 'C14-m5': ['C14'], 'C14-m6': ['C14'],
 'C15-m5': ['C15'], 'C15-m6': ['C15'],
 'C16-m5': ['C16'], 'C16-m6': ['C16'],
 'C17-m5': ['C17'], 'C17-m6': ['C12'],
 'C18-m5': ['C18'], 'C18-m6': ['C18'],
 'C19-m5': ['C19'], 'C19-m6': [],
 'C20-m5': ['C20'], 'C20-m6': ['C20'],
 # round 4 (m7, m8): ten properties (those with the most misses so far)
 'C02-m7': ['C02', 'C05', 'C18'], 'C02-m8': ['C02', 'C09'],
 'C03-m7': ['C01', 'C03', 'C06', 'C09'], 'C03-m8': ['C03', 'C06'],
 'C07-m7': ['C05', 'C07'], 'C07-m8': ['C05', 'C07', 'C09', 'C11', 'C17'],
 'C08-m7': ['C06', 'C08'], 'C08-m8': ['C05', 'C06', 'C08'],
 'C10-m7': ['C05', 'C09', 'C10'], 'C10-m8': ['C10'],
 'C11-m7': ['C11'], 'C11-m8': ['C09', 'C11', 'C19'],
 'C12-m7': ['C12', 'C17'], 'C12-m8': [],
 'C13-m7': [], 'C13-m8': ['C13'],
 'C17-m7': ['C17'], 'C17-m8': ['C17'],
 'C19-m7': ['C19'], 'C19-m8': ['C19'],
 # round 5 (m9): the ten properties not in round 4, one change each; evaluated against the owning check plus C05 and C09
 'C01-m9': [], 'C04-m9': ['C04'], 'C05-m9': ['C05', 'C09'], 'C06-m9': ['C06'], 'C09-m9': [],
 'C14-m9': ['C14'], 'C15-m9': ['C15'], 'C16-m9': ['C16'], 'C18-m9': ['C18'], 'C20-m9': ['C20'],
}
ROUND5_CHECKS = 'the owning check, C05 and C09'
# after strengthening the owning check (re-run of the owning check only)
AFTER = {
 'C02-m2': (['C02', 'C03'], 'C02: runs of 1..4 signs over an operand pool of every type, every grouping of the run evaluating alike; C03: runs of 1..4 minus signs, literal and bound'),
 'C03-m2': (['C03', 'C02'], 'same additions as for C02-m2'),
 'C07-m1': (['C07'], 'C07: truthy non-bool predicates in map(x,p,e), all, exists, exists_one; one element of every type at a time'),
 'C08-m1': (['C08'], "C08: '.f' on a bound non-map value (int, string, list, null, bool) is asserted to be an absent field"),
 'C09-m2': (['C09'], 'C09: grid of macros over a constant receiver whose body calls a built-in on the variable inside an absorbing construct'),
 'C10-m2': (['C10'], 'C10: exhaustive grid of taken jumps with boundary distances (around i32::MAX - pc) and the overflow-checked profile in the quick tier'),
 'C11-m1': (['C11'], 'C11: map macros whose body fails differently per key, in histories and on 16 threads'),
 'C11-m2': (['C11'], 'C11: matches()/zone/parse calls with valid then invalid then repeated invalid arguments in histories, the short-sequence alphabet and per-thread sequences'),
 'C12-m1': (['C12'], 'C12: 15 more referencing constructs (every macro body/predicate position, map receivers, nested macros) with the macro mention first'),
 'C12-m2': (['C12'], 'C12: collisions in receiver position (x.f() on a non-map and on a map) besides f(x)'),
 'C18-m2': (['C18'], 'C18: grid of malformed f-string placeholders with newlines at indented / lower positions'),
 'C01-m4': (['C01'], 'C01: time-zone names east / west of UTC, fixed offsets and an unknown zone in the built-in sweep pools (boundary instants x zone)'),
 'C02-m4': (['C02'], 'harness: catch-all arms over rscel\'s public enums so that a new AST variant / opcode / error variant does not break the build; C02: dot-leading float literals as operands and ?: slots, and a rejected tight rendering is now a violation (it was silently ignored)'),
 'C08-m4': (['C08'], 'C08: argument kind "call of an unbound function" (a failure that is not an absent variable)'),
 'C11-m3': (['C11'], 'C11: programs that need exactly the whole call-depth budget and runaway recursions in the history pool and the short-sequence alphabet'),
 'C11-m4': (['C11'], 'C11: map comparisons with one failing and one differing entry, in histories and on 16 threads'),
 'C12-m4': (['C12', 'C07'], 'C12 / C07: stored programs that read a macro loop variable, referenced from loop bodies (per element, two loops, outside then inside, nested, through a chain); the reference model now evaluates a referenced program under the bindings in effect at the reference'),
 'C13-m4': (['C13'], 'C13: a backslash followed by 8 or 9 is asserted to be a malformed octal escape (was listed as unspecified)'),
 'C17-m4': (['C17'], 'C17: loop-variable names that also occur free in the range / reduce seed; the generator now re-uses outer variable names as loop variables'),
 'C02-m5': (['C02'], 'C02: a sign in front of a literal that carries a postfix chain (9 literal receivers x 12 chains): bare, spaced and grouped spelling evaluate alike'),
 'C02-m6': (['C02'], 'C02: relation chains (a < b < c) in the evaluated trees; minimal and fully parenthesised renderings must agree'),
 'C03-m5': (['C03'], 'C03: chains of three operands of equal precedence over 13 boundary values, all 8 literal/bound patterns, against the model applied twice; binary points also in the two mixed literal/bound forms'),
 'C03-m6': (['C03'], 'C03: i64::MIN % -1 must be exactly 0 (the model had accepted "0 or failure")'),
 'C06-m6': (['C06'], 'C06: the overflow-checked profile also runs in the quick tier'),
 'C07-m6': (['C07'], 'C07: map(x,p,e) whose transform would fail on rejected elements (guard idiom) and a recorded transform (visited only for accepted elements)'),
 'C08-m5': (['C08'], 'C08: the failing / absent argument kinds spelled with literals only (evaluated while compiling)'),
 'C11-m5': (['C11'], 'C11: one evaluation of several seconds (8 million innermost macro bodies) must give its value'),
 'C12-m5': (['C12'], 'C12: reference constructs with a fallback after the reference (coalesce(p, 0), also inside a macro body, || true)'),
 'C12-m6': (['C12'], 'C12: member collisions in call position (m.size() with a field size holding a non-callable value must fail, not run the method)'),
 'C13-m6': (['C13'], 'C13: a high-surrogate \\u escape followed by a second escape or character is still rejected'),
 'C17-m6': (['C17'], 'C17: type names occurring in the source are bound as (unreported) variables in the relevance check; match type patterns in the position grid'),
 'C19-m6': (['C19', 'C11'], 'C19: programs with a map constant are read back 6 more times and each copy must behave like the original; behaviour that depends on the layout of a rebuilt map is now a violation instead of a skip; macros over map constants in the grid. C11: the same macros and string(map) in the history pool and on 16 threads'),
 'C12-m8': (['C12', 'C01'], 'C12: self and mutual cycles through 1..8 nested macro bodies, run in children of the unoptimised and the release build on both stack sizes (vcheck builds profile opt0 for C12 too); C01: four nested-macro-body cycle shapes in its cycle list'),
 'C13-m7': (['C13'], 'C13: a sign, blank, underscore, dot or non-hex letter in every digit position of \\x, \\u and \\U escapes'),
 'C01-m9': (['C01', 'C12'], 'C01: eleven cycle shapes through macro bodies over a map receiver (literal and bound), map(x,p,e) predicates; C12: self and mutual cycles through every macro over a map receiver, unoptimised and release children on both stacks'),
 'C09-m9': (['C09'], 'C09: maps read with dot notation under a key spelled like a built-in function, macro or type (23 names x 5 values x 8 forms): constant map, bound map and map built at run time must agree'),
 'C20-m4': (['C20'], 'C20: the SQL re-parser lets a type name absorb a following [..] / (..) as SQL does - which also exposed the same defect on the unchanged tree for the empty map literal (repaired, 0ecc3cf)'),
}
for d in sorted(os.listdir(ROOT)):
    p = os.path.join(ROOT, d)
    if not os.path.isdir(p):
        continue
    readme = open(os.path.join(p, 'README.md')).read()
    m = re.search(r'((?:Need(?:s|ed)? to manifest|Manifests only|What is needed to see it|Needed? to see it|To manifest)[^\n]*(?:\n(?!\n).*)*)', readme)
    needs = ' '.join(m.group(1).split()) if m else ''
    title = readme.strip().splitlines()[0].lstrip('# ').strip()
    files = sorted(set(re.findall(r'^diff --git a/(\S+)', open(os.path.join(p, 'patch.diff')).read(), re.M)))
    prop = d.split('-')[0]
    meta = {
        'property': prop,
        'title': title,
        'files_changed': files,
        'needs_to_manifest': needs,
        'produced_by': 'an independent sub-agent given only the property text and a scratch worktree of /repo (nothing from /verif)',
        'confirmed': {
            'how': 'tools/seed_verify.sh in a scratch worktree: patch applied -> cargo test -p rscel -p rscel-to-sql --offline passes (497 + doctests); '
                   'seed_demo.rs as an integration test fails with the patch and passes without it'
                   + (' (demo_cargo.diff adds the bincode dev-dependency the demo needs, applied for both runs)' if os.path.exists(os.path.join(p, 'demo_cargo.diff')) else ''),
            'suite_passes_with_change': True, 'demo_fails_with_change': True, 'demo_passes_without_change': True,
        },
        'evaluation': {
            'how': ('tools/seed_eval.sh: git -C /repo apply patch.diff; ./vcheck <ID> quick for ' + ROUND5_CHECKS + ' only (VERIF_SEED default); git -C /repo checkout -- .') if d.endswith('-m9') else
                   'tools/seed_eval.sh: git -C /repo apply patch.diff; ./vcheck <C01..C20> quick (VERIF_SEED default); git -C /repo checkout -- .',
            'caught_by_first_pass': FIRST.get(d, []),
            'caught_by_own_property_first_pass': prop in FIRST.get(d, []),
        },
    }
    if d == 'C01-m5':
        meta['evaluation']['note'] = 'the change makes compilation hang; C01 and C18 end in their watchdog (exit 2, inconclusive) - by the interface a watchdog is never a violation, so this change is reported but not "caught"'
    if d == 'C02-m4':
        meta['evaluation']['note'] = 'first pass: the harness did not compile against the new AST variant, all 20 checks exited 2; fixed by catch-all arms'
    if d in AFTER:
        meta['evaluation']['strengthened'] = AFTER[d][1]
        meta['evaluation']['caught_by_after_strengthening'] = sorted(set(FIRST.get(d, [])) | set(AFTER[d][0]))
    json.dump(meta, open(os.path.join(p, 'meta.json'), 'w'), indent=1)
    print(d, 'ok', len(needs))
