#!/bin/bash
# verify (in the scratch worktrees) and evaluate (against /repo) every seeded change under /tmp/seedout
cd /verif
for id in C01 C04 C06 C07 C08 C09 C10 C11 C12 C13 C14 C15 C16 C17 C18 C19 C20; do
  for m in m1 m2; do
    [ -f /tmp/seedout/$id/$m/patch.diff ] || continue
    if [ "$id" = "C19" ] && [ -f /tmp/seedout/$id/$m/demo_cargo.diff ]; then (cd /tmp/seed_$id && git apply /tmp/seedout/$id/$m/demo_cargo.diff 2>/dev/null); fi
    ./tools/seed_verify.sh $id $m
    (cd /tmp/seed_$id && git checkout -q -- . 2>/dev/null)
  done
done > /verif/work/seed_verify.log 2>&1
for id in C01 C04 C06 C07 C08 C09 C10 C11 C12 C13 C14 C15 C16 C17 C18 C19 C20; do
  for m in m1 m2; do
    [ -f /tmp/seedout/$id/$m/patch.diff ] || continue
    ./tools/seed_eval.sh $id $m
  done
done > /verif/work/seed_eval.log 2>&1
echo finished >> /verif/work/seed_eval.log
