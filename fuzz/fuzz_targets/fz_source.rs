#![no_main]
//! C01 on raw source text: the bytes are the program; only a panic fails.
use libfuzzer_sys::fuzz_target;
use rscel_verif::engine::{self, Acc};
use std::sync::Once;

static INIT: Once = Once::new();

fuzz_target!(|data: &[u8]| {
    INIT.call_once(engine::install_panic_hook);
    let mut acc = Acc::new("C01");
    for fail in rscel_verif::props::c01::fuzz_source(data, &mut acc) {
        if engine::known_open("C01", &fail.sig).is_some() {
            continue;
        }
        let body = serde_json::json!({"property": "C01", "sig": fail.sig, "what": fail.what, "detail": fail.detail, "found_by": "libFuzzer"});
        let path = format!("/verif/replays/C01-fuzz-{:016x}.json", engine::hash64(&(fail.sig.as_str(), data)));
        let _ = std::fs::create_dir_all("/verif/replays");
        let _ = std::fs::write(&path, serde_json::to_string_pretty(&body).unwrap());
        println!("VIOLATION property=C01 replay={}", path);
        println!("  sig={} :: {}", fail.sig, fail.what);
        std::process::abort();
    }
});
