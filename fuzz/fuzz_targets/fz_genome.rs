#![no_main]
//! Coverage-guided driver for the harness's genome decoders: the fuzzer's bytes ARE the
//! genome of the property named by VERIF_FUZZ_PROP; the oracle runs inside the target. A
//! failure that is not an open known finding writes a replay file, prints the VIOLATION
//! line and aborts (so libFuzzer saves the input).
use libfuzzer_sys::fuzz_target;
use rscel_verif::engine::{self, Acc};
use std::sync::OnceLock;

static PROP: OnceLock<(String, fn(&[u8], &mut Acc) -> Vec<engine::Failure>)> = OnceLock::new();

fuzz_target!(|data: &[u8]| {
    let (id, f) = PROP.get_or_init(|| {
        engine::install_panic_hook();
        let id = std::env::var("VERIF_FUZZ_PROP").unwrap_or_else(|_| "C09".to_string());
        let f = rscel_verif::props::fuzz_entry(&id).expect("no fuzz entry for this property");
        (id, f)
    });
    let pid = &id[..3];
    let mut acc = Acc::new(pid);
    for fail in f(data, &mut acc) {
        if engine::known_open(pid, &fail.sig).is_some() {
            continue;
        }
        let hex: String = data.iter().map(|b| format!("{:02x}", b)).collect();
        let mut detail = fail.detail.clone();
        if let serde_json::Value::Object(m) = &mut detail {
            m.insert("genome_hex".into(), serde_json::json!(hex));
        }
        let body = serde_json::json!({"property": pid, "sig": fail.sig, "what": fail.what, "detail": detail, "found_by": "libFuzzer"});
        let path = format!("/verif/replays/{}-fuzz-{:016x}.json", pid, engine::hash64(&(fail.sig.as_str(), hex.as_str())));
        let _ = std::fs::create_dir_all("/verif/replays");
        let _ = std::fs::write(&path, serde_json::to_string_pretty(&body).unwrap());
        println!("VIOLATION property={} replay={}", pid, path);
        println!("  sig={} :: {}", fail.sig, fail.what);
        std::process::abort();
    }
});
